#!/usr/bin/env python3
"""vp.py -- driver for the contract-based (CBMC --dfcc) verification of /repo.

  vp.py setup                      verify tools, parse the unit registry
  vp.py list [PID]                 list units
  vp.py check PID [--tier quick|thorough] [--unit NAME ...] [--jobs N] [--keep]
  vp.py replay PATH                re-run a native replay file produced by a check

Exit codes of `check`: 0 = every obligation of every selected unit discharged
(known findings printed as KNOWN-FINDING); 1 = at least one obligation failed
(VIOLATION line printed); 2 = inconclusive (timeout, tool error, SPEC-STALE,
VACUOUS) -- never printed as a violation.
"""
import argparse, concurrent.futures as cf, hashlib, json, os, re, resource, shutil
import subprocess, sys, threading, time, traceback

VERIF = os.path.dirname(os.path.abspath(__file__))
REPO = os.environ.get("VERIF_REPO", "/repo")
SRC = os.path.join(REPO, "src")
CONTRACTS = os.path.join(VERIF, "contracts")
LIB = os.path.join(CONTRACTS, "lib")
WORKROOT = os.path.join(VERIF, ".work")
sys.path.insert(0, CONTRACTS)

CBMC_CHECKS = ["--bounds-check", "--pointer-check", "--pointer-overflow-check",
               "--div-by-zero-check", "--signed-overflow-check",
               "--pointer-primitive-check"]
MEM_LIMIT = 14 * 1024 ** 3


class ToolError(Exception):
    def __init__(self, kind, msg):
        super().__init__(msg)
        self.kind = kind
        self.msg = msg


def run(cmd, cwd=None, timeout=None, mem=True, env=None, stdout_path=None):
    def pre():
        if mem:
            resource.setrlimit(resource.RLIMIT_AS, (MEM_LIMIT, MEM_LIMIT))
    t0 = time.time()
    out = open(stdout_path, "wb") if stdout_path else subprocess.PIPE
    try:
        p = subprocess.run(cmd, cwd=cwd, stdout=out, stderr=subprocess.PIPE if stdout_path else subprocess.STDOUT,
                           timeout=timeout, preexec_fn=pre, env=env)
        rc = p.returncode
        txt = (p.stdout or b"").decode("utf-8", "replace") if not stdout_path else (p.stderr or b"").decode("utf-8", "replace")
    except subprocess.TimeoutExpired:
        rc, txt = -9, "TIMEOUT"
    finally:
        if stdout_path:
            out.close()
    return rc, txt, time.time() - t0


# --------------------------------------------------------------------------- units
def load_units():
    import units as U
    return U.all_units()


def repo_inc():
    inc = ["-I" + SRC]
    b = os.path.join(REPO, "_build")
    if os.path.exists(os.path.join(b, "version.h")):
        inc.append("-I" + b)
    else:
        inc.append("-I" + os.path.join(LIB, "fallback_build"))
    return inc


class Builder:
    """compiles repo files once per (file, defines) and per-unit spec files"""

    def __init__(self, work):
        self.work = work
        self.lock = threading.Lock()
        self.objs = {}

    def repo_obj(self, f, defines):
        key = (f, tuple(defines))
        with self.lock:
            ent = self.objs.get(key)
            if ent is None:
                ent = self.objs[key] = {"lock": threading.Lock(), "path": None, "err": None}
        with ent["lock"]:
            if ent["path"] or ent["err"]:
                if ent["err"]:
                    raise ToolError("build", ent["err"])
                return ent["path"]
            h = hashlib.sha1(repr(key).encode()).hexdigest()[:10]
            out = os.path.join(self.work, "repo_%s_%s.o" % (os.path.basename(f).replace(".", "_"), h))
            src = os.path.join(SRC, f)
            if not os.path.exists(src):
                ent["err"] = "SPEC-STALE missing repo file %s" % f
                raise ToolError("stale", ent["err"])
            cmd = ["goto-cc", "-c", "--export-file-local-symbols"] + repo_inc() + list(defines) + [src, "-o", out]
            rc, txt, _ = run(cmd, timeout=300)
            if rc != 0:
                ent["err"] = "goto-cc failed on %s: %s" % (f, txt[-2000:])
                raise ToolError("build", ent["err"])
            ent["path"] = out
            return out


def symtab(gb):
    rc, txt, _ = run(["goto-instrument", "--show-symbol-table", gb], timeout=300)
    syms = set()
    for m in re.finditer(r"^Symbol\.+: (\S+)", txt, re.M):
        syms.add(m.group(1))
    return syms


def make_loops_file(unit, gb, path):
    syms = symtab(gb)
    funcs = []
    for fn, loops in unit.loops.items():
        if fn not in syms:
            raise ToolError("stale", "SPEC-STALE function=%s not found (loop contracts)" % fn)
        ll = []
        for lp in loops:
            names = set(lp.get("vars", []))
            smap = []
            for n in sorted(names):
                short = re.sub(r"^__CPROVER_file_local_\w+?_c_", "", fn)
                cands = [s for s in syms if (s.startswith(fn + "::") or s.startswith(short + "::")) and s.endswith("::" + n) and "$" not in s]
                if len(cands) != 1:
                    raise ToolError("stale", "SPEC-STALE function=%s local '%s' resolves to %d symbols %s" % (fn, n, len(cands), cands[:4]))
                smap.append("%s,%s" % (n, cands[0]))
            ent = {"loop_id": str(lp["loop_id"]), "symbol_map": ";".join(smap)}
            for k in ("invariants", "assigns", "decreases"):
                if lp.get(k):
                    ent[k] = lp[k]
            ll.append(ent)
        funcs.append({fn: ll})
    with open(path, "w") as f:
        json.dump({"functions": funcs}, f, indent=1)


def build_unit(unit, bld, wdir, extra_defines=()):
    os.makedirs(wdir, exist_ok=True)
    log = []
    defines = list(unit.defines) + list(extra_defines)
    objs = [bld.repo_obj(f, unit.defines) for f in unit.repo]
    for i, s in enumerate(unit.spec + unit.lib):
        src = os.path.join(CONTRACTS, s)
        out = os.path.join(wdir, "spec%d.o" % i)
        if unit.plain and s in unit.spec:
            # harness-encoded contract: preprocess, hoist OLD() snapshots, compile the result
            rc, txt, _ = run(["gcc", "-E", "-P", "-DVERIF_PLAIN=1", "-I" + LIB, "-I" + CONTRACTS] + repo_inc() + defines + [src], timeout=120)
            if rc != 0:
                raise ToolError("build", "preprocessing failed on spec %s: %s" % (s, txt[-3000:]))
            src = os.path.join(wdir, "spec%d.plain.c" % i)
            with open(src, "w") as f:
                f.write(native_rewrite(txt))
        cmd = ["goto-cc", "-c", "-I" + LIB, "-I" + CONTRACTS] + repo_inc() + defines + [src, "-o", out]
        rc, txt, _ = run(cmd, timeout=300)
        if rc != 0:
            raise ToolError("build", "goto-cc failed on spec %s: %s" % (s, txt[-3000:]))
        objs.append(out)
    gb = os.path.join(wdir, "u.gb")
    rc, txt, _ = run(["goto-cc", "--function", unit.entry] + objs + ["-o", gb], timeout=300)
    if rc != 0:
        raise ToolError("build", "link failed: %s" % txt[-3000:])
    cur = gb
    if unit.pre_instrument:
        nxt = os.path.join(wdir, "u.p.gb")
        rc, txt, _ = run(["goto-instrument"] + unit.pre_instrument + [cur, nxt], timeout=600)
        log.append(txt[-1500:])
        if rc != 0:
            raise ToolError("build", "pre-instrument failed: %s" % txt[-3000:])
        cur = nxt
    if unit.enforce or unit.replace or unit.loops:
        nxt = os.path.join(wdir, "u.i.gb")
        cmd = ["goto-instrument", "--dfcc", unit.entry]
        # the C library (malloc model) is linked in by goto-instrument: the failure mode must be fixed here
        cmd += ["--malloc-may-fail", "--malloc-fail-null"] if unit.malloc_may_fail else ["--no-malloc-may-fail"]
        syms = None
        if unit.enforce:
            fn = unit.enforce
            syms = symtab(cur)
            if fn not in syms:
                raise ToolError("stale", "SPEC-STALE function=%s (contract target not found in goto binary)" % fn)
            cmd += ["--enforce-contract-rec" if unit.rec else "--enforce-contract", "%s/%s" % (fn, unit.contract_name(fn))]
        for fn in unit.replace:
            if syms is None:
                syms = symtab(cur)
            if fn not in syms:
                raise ToolError("stale", "SPEC-STALE function=%s (replaced callee not found)" % fn)
            cmd += ["--replace-call-with-contract", "%s/%s" % (fn, unit.contract_name(fn))]
        if unit.loops:
            lf = os.path.join(wdir, "loops.json")
            make_loops_file(unit, cur, lf)
            cmd += ["--loop-contracts-file", lf, "--apply-loop-contracts"]
        cmd += [cur, nxt]
        rc, txt, _ = run(cmd, timeout=900)
        log.append(txt[-3000:])
        if rc != 0:
            kind = "stale" if re.search(r"(not found|no loop|loop_id|symbol_map|Function .* has no contract|does not exist)", txt) else "build"
            raise ToolError(kind, ("SPEC-STALE " if kind == "stale" else "") + "goto-instrument --dfcc failed: %s" % txt[-3000:])
        cur = nxt
    if unit.post_instrument:
        nxt = os.path.join(wdir, "u.q.gb")
        rc, txt, _ = run(["goto-instrument"] + unit.post_instrument + [cur, nxt], timeout=600)
        log.append(txt[-1500:])
        if rc != 0:
            raise ToolError("build", "post-instrument failed: %s" % txt[-3000:])
        cur = nxt
    return cur, "\n".join(log)


def cbmc_cmd(unit, gb, trace=False, props=()):
    """main runs are WITHOUT --trace (trace generation over objects of symbolic size 2^40 runs out of
    memory and truncates the result list); traces are requested only on the small-size variant or for
    a single named property."""
    cmd = ["cbmc"] + (unit.checks if unit.checks is not None else CBMC_CHECKS)
    if not unit.malloc_may_fail:
        cmd += ["--no-malloc-may-fail"]
    cmd += unit.cbmc_flags
    if unit.plain:
        cmd += ["--drop-unused-functions"]
    if trace:
        cmd += ["--json-ui", "--trace"]
    for p in props:
        cmd += ["--property", p]
    cmd += [gb]
    return cmd


def parse_cbmc(path):
    try:
        data = json.load(open(path))
    except Exception as e:
        head = open(path, "rb").read(3000).decode("utf-8", "replace")
        raise ToolError("tool", "cbmc output is not JSON (%s): %s" % (e, head))
    results, msgs, status = None, [], None
    for x in data:
        if "result" in x:
            results = x["result"]
        if "messageText" in x:
            msgs.append(x["messageText"])
        if "cProverStatus" in x:
            status = x["cProverStatus"]
    return results, msgs, status


def parse_cbmc_text(path):
    """plain-text cbmc output -> (results, messages, status).  (--json-ui always embeds traces, and trace
    generation over objects of symbolic size runs out of memory, so main runs use the text UI.)"""
    txt = open(path, errors="replace").read()
    results, msgs = None, []
    cur_file, cur_fn = "", ""
    in_res = False
    for line in txt.splitlines():
        if line.startswith("** Results:"):
            in_res, results = True, []
            continue
        if in_res:
            m = re.match(r"^(\S.*) function (\S+)$", line)
            if m:
                cur_file, cur_fn = m.group(1), m.group(2)
                continue
            m = re.match(r"^\[(\S+)\] (?:line (\d+) )?(.*): (SUCCESS|FAILURE|UNKNOWN|ERROR)$", line)
            if m:
                loc = {"file": cur_file, "function": cur_fn}
                if m.group(2):
                    loc["line"] = m.group(2)
                results.append({"property": m.group(1), "description": m.group(3), "status": m.group(4), "sourceLocation": loc})
                continue
            if line.startswith("** ") and "failed" in line:
                continue
        if line.strip():
            msgs.append(line)
    status = "success" if "VERIFICATION SUCCESSFUL" in txt else ("failure" if "VERIFICATION FAILED" in txt else None)
    if status is None:
        results = None if not results else results
        if results is not None and ("Out of memory" in txt or "bad_alloc" in txt):
            results = None
    return results, msgs, status


def line_text(loc):
    try:
        f = loc.get("file")
        if not f:
            return ""
        if not os.path.isabs(f):
            f = os.path.join(loc.get("workingDirectory", ""), f)
        with open(f, errors="replace") as fh:
            return fh.readlines()[int(loc["line"]) - 1].strip()
    except Exception:
        return ""


def ob_identity(unit, o):
    loc = o.get("sourceLocation", {})
    cls = re.sub(r"\.\d+$", "", o.get("property", ""))
    return {"unit": unit.name, "function": loc.get("function", ""), "class": cls,
            "description": o.get("description", ""), "line_text": line_text(loc),
            "id": o.get("property", "")}


def run_unit(unit, bld, work, tier):
    """returns dict with status in ok|fail|timeout|error|stale|vacuous"""
    wdir = os.path.join(work, unit.name)
    res = {"unit": unit.name, "kind": unit.kind, "bounds": unit.bounds, "functions": unit.functions,
           "callees": unit.callees, "obligations": 0, "discharged": 0, "failed": [], "reach": 0,
           "status": "ok", "solver_s": 0.0, "build_s": 0.0, "backend": "cbmc 6.11 SAT (MiniSat2)",
           "config": unit.defines, "diag": ""}
    t0 = time.time()
    try:
        gb, blog = build_unit(unit, bld, wdir)
        res["build_s"] = round(time.time() - t0, 2)
        res["gb"] = gb
        out = os.path.join(wdir, "cbmc.txt")
        cmd = cbmc_cmd(unit, gb)
        res["checker_cmd"] = " ".join(cmd)
        rc, err, dt = run(cmd, timeout=unit.timeout * (3 if tier == "thorough" else 1), stdout_path=out)
        res["solver_s"] = round(dt, 2)
        if rc == -9:
            res["status"] = "timeout"
            res["diag"] = "cbmc exceeded %ds" % unit.timeout
            return res
        results, msgs, status = parse_cbmc_text(out)
        if results is None or status is None:
            results = None
            txt = "\n".join(msgs[-15:]) + err[-1500:]
            if "out of memory" in txt.lower() or "bad_alloc" in txt or rc in (-6, -11, 134, 137):
                res["status"] = "error"
                res["diag"] = "cbmc ran out of memory / crashed: " + txt[-800:]
            else:
                res["status"] = "error"
                res["diag"] = "cbmc produced no result (rc=%s): %s" % (rc, txt[-1500:])
            return res
        warn = [m for m in msgs if re.search(r"ignoring|no body for|Parse Error", m)]
        nobody = sorted(set(re.findall(r"no body for (?:function|callee) (\S+)", "\n".join(msgs))))
        bad = [n for n in nobody if n not in unit.nobody_ok]
        res["no_body"] = nobody
        if bad:
            res["status"] = "error"
            res["diag"] = "unexpected 'no body for' %s (every external callee needs a stub or contract)" % bad
            return res
        if any("ignoring" in m for m in warn):
            res["status"] = "error"
            res["diag"] = "cbmc ignored part of the specification: %s" % warn[:3]
            return res
        classes = {}
        for o in results:
            desc = o.get("description", "")
            if "VERIF_REACH" in desc:
                res["reach"] += 1
                if o["status"] != "FAILURE":
                    res["status"] = "vacuous"
                    res["diag"] = "VACUOUS reachability marker '%s' is not reachable (contradictory requires/assume?)" % desc
                continue
            res["obligations"] += 1
            cls = re.sub(r"\.\d+$", "", o.get("property", "")).split(".", 1)[-1] if "." in o.get("property", "") else o.get("property", "")
            classes[cls] = classes.get(cls, 0) + 1
            if o["status"] == "SUCCESS":
                res["discharged"] += 1
            else:
                ident = ob_identity(unit, o)
                ident["status"] = o["status"]
                res["failed"].append(ident)
        res["classes"] = classes
        if res["status"] == "vacuous":
            return res
        if res["reach"] == 0:
            res["status"] = "vacuous"
            res["diag"] = "VACUOUS no reachability marker in unit"
            return res
        if res["obligations"] < unit.min_obligations:
            res["status"] = "vacuous"
            res["diag"] = "VACUOUS only %d obligations generated (floor %d)" % (res["obligations"], unit.min_obligations)
            return res
        if unit.loops:
            nstep = sum(v for k, v in classes.items() if "loop_invariant_step" in k or "loop_step" in k)
            want = sum(1 for ls in unit.loops.values() for l in ls if l.get("invariants"))
            if nstep < want:
                res["status"] = "vacuous"
                res["diag"] = "VACUOUS loop contract silently dropped: %d loop_invariant_step obligations, expected >= %d" % (nstep, want)
                return res
        if res["failed"]:
            res["status"] = "fail"
        res["sample_obligations"] = [ob_identity(unit, o)["class"] + ": " + o.get("description", "") for o in results[:3]]
    except ToolError as e:
        res["status"] = "stale" if e.kind == "stale" else "error"
        res["diag"] = e.msg
    except Exception as e:
        res["status"] = "error"
        res["diag"] = "driver exception: %s\n%s" % (e, traceback.format_exc()[-1500:])
    res["wall_s"] = round(time.time() - t0, 2)
    return res


# ------------------------------------------------------------------ native replay
def find_balanced(s, i):
    """s[i] == '(' -> index after the matching ')'"""
    d = 0
    for j in range(i, len(s)):
        if s[j] == "(":
            d += 1
        elif s[j] == ")":
            d -= 1
            if d == 0:
                return j + 1
    raise ValueError("unbalanced")


def native_rewrite(text):
    """hoist __VERIF_OLD(e) snapshots to the __VERIF_SNAP_HERE preceding them"""
    out, pos, k = [], 0, 0
    while True:
        i = text.find("__VERIF_SNAP_HERE", pos)
        if i < 0:
            out.append(text[pos:])
            break
        e = text.find("__VERIF_SNAP_END", i)
        seg = text[i + len("__VERIF_SNAP_HERE"):e]
        decls = []
        while True:
            j = seg.find("__VERIF_OLD")
            if j < 0:
                break
            p = seg.index("(", j)
            q = find_balanced(seg, p)
            expr = seg[p + 1:q - 1]
            k += 1
            decls.append("__typeof__(%s) __old_%d = (%s);" % (expr, k, expr))
            seg = seg[:j] + ("__old_%d" % k) + seg[q:]
        out.append(text[pos:i] + " ".join(decls) + seg)
        pos = e + len("__VERIF_SNAP_END")
    return "".join(out)


def trace_inputs(trace, entry):
    """pull harness input assignments (name, idx, value) from a CBMC json trace"""
    vals = []
    for s in trace or []:
        if s.get("stepType") != "assignment" or s.get("assignmentType") == "actual-parameter":
            continue
        loc = s.get("sourceLocation", {})
        if loc.get("function") != entry:
            continue
        lhs = s.get("lhs", "")
        v = s.get("value", {})
        b = v.get("binary")
        if b is None or not re.fullmatch(r"[01]+", b or ""):
            continue
        m = re.fullmatch(r"([A-Za-z_]\w*)(?:\[(\d+)l?\])?", lhs)
        if not m:
            continue
        name, idx = m.group(1), m.group(2)
        if name.endswith("__nd"):
            continue
        vals.append((name, int(idx) if idx is not None else -1, int(b, 2)))
    return vals


def native_replay(unit, inputs, wdir, tag):
    """build + run the native replay. returns (verdict, output, c_path) ; verdict in fail|pass|reject|nobuild"""
    os.makedirs(wdir, exist_ok=True)
    nat = unit.native
    inc = ["-I" + LIB, "-I" + CONTRACTS] + repo_inc()
    pre = []
    for s in unit.spec:
        rc, txt, _ = run(["clang", "-E", "-P", "-DVERIF_NATIVE=1"] + inc + list(unit.defines) + list(nat.get("defines", [])) + [os.path.join(CONTRACTS, s)], mem=False)
        if rc != 0:
            return "nobuild", txt[-2000:], None
        pre.append(native_rewrite(txt))
    cpath = os.path.join(wdir, "replay_%s.c" % tag)
    with open(cpath, "w") as f:
        f.write("/* native replay generated by vp.py from unit %s; build: see REPLAY header in the .txt next to it */\n" % unit.name)
        f.write("\n".join(pre))
        f.write("\nint main(void){ %s(); return 0; }\n" % unit.entry)
    ipath = os.path.join(wdir, "inputs_%s.txt" % tag)
    with open(ipath, "w") as f:
        for n, i, v in inputs:
            f.write("%s %d %d\n" % (n, i, v))
    exe = os.path.join(wdir, "replay_%s.exe" % tag)
    srcs = [os.path.join(SRC, x) for x in nat.get("repo", unit.repo)]
    cmd = ["clang", "-g", "-O0", "-fsanitize=address,undefined", "-fno-sanitize-recover=undefined", "-w",
           "-DVERIF_NATIVE=1"] + inc + list(unit.defines) + list(nat.get("defines", [])) + \
          [cpath, os.path.join(LIB, "native_rt.c")] + srcs + ["-o", exe] + nat.get("ldflags", [])
    rc, txt, _ = run(cmd, mem=False, timeout=300)
    if rc != 0:
        return "nobuild", " ".join(cmd) + "\n" + txt[-3000:], cpath
    env = dict(os.environ, VERIF_INPUTS=ipath, ASAN_OPTIONS="detect_leaks=0:abort_on_error=0:allocator_may_return_null=1", UBSAN_OPTIONS="print_stacktrace=1")
    rc, out, _ = run([exe], mem=False, timeout=60, env=env)
    build = " ".join(cmd)
    if "REPLAY-REJECT" in out:
        return "reject", build + "\n" + out[-3000:], cpath
    if rc != 0 or "REPLAY-FAIL" in out or "ERROR: AddressSanitizer" in out or "runtime error" in out:
        return "fail", build + "\n" + out[-6000:], cpath
    return "pass", build + "\n" + out[-2000:], cpath


def handle_failure(unit, res, bld, work, pid, tier):
    """for a failing unit: one report file listing every failed obligation, the verifier's output,
    and -- where a counterexample can be replayed -- the native reproduction against the real code.
    returns one dict {identity, native, path, others}"""
    rdir = os.path.join(VERIF, "replay", pid)
    os.makedirs(rdir, exist_ok=True)
    failed = res["failed"]
    txtpath = os.path.join(rdir, unit.name + ".txt")
    body = ["UNIT %s  (property %s)" % (unit.name, pid), "checker: " + res.get("checker_cmd", ""), "",
            "FAILED OBLIGATIONS (%d)" % len(failed)]
    for fo in failed:
        body.append("  %s | %s | %s | %s" % (fo["function"], fo["id"], fo["description"], fo["line_text"]))
    best, best_native, cfile = failed[0], "not-attempted", None
    if unit.native is not None:
        traces = small_variant_traces(unit, bld, work, res)
        tried = 0
        for fo in failed:
            key = (fo["function"], fo["class"], fo["description"])
            if key not in traces or tried >= 4:
                continue
            tried += 1
            tag = "%s_%d" % (unit.name, tried)
            inputs = trace_inputs(traces[key], unit.entry)
            verdict, out, cpath = native_replay(unit, inputs, os.path.join(work, unit.name, "native"), tag)
            body += ["", "NATIVE REPLAY of the %s counterexample for [%s %s]: %s" % ("small-size" if unit.small else "verifier's", fo["id"], fo["description"], verdict),
                     "inputs: " + " ".join("%s%s=%d" % (a, "" if b < 0 else "[%d]" % b, c) for a, b, c in inputs[:120]), out]
            if best_native != "reproduced":
                best_native = verdict
            if verdict == "fail":
                best, best_native = fo, "reproduced"
                cfile = os.path.join(rdir, unit.name + ".replay.c")
                shutil.copy(cpath, cfile)
                shutil.copy(cpath.replace("replay_", "inputs_").replace(".c", ".txt"), os.path.join(rdir, unit.name + ".inputs.txt"))
                body += ["", "TRACE of that counterexample (harness inputs)"]
                for s_ in traces[key] or []:
                    if s_.get("stepType") == "assignment" and s_.get("sourceLocation", {}).get("function") == unit.entry and not s_.get("hidden") and not str(s_.get("lhs", "")).startswith("__"):
                        body.append("  %s = %s" % (s_.get("lhs"), (s_.get("value") or {}).get("data")))
                break
        if tried == 0:
            body += ["", "no counterexample trace could be obtained for a native replay (the small-size variant does not fail, or trace generation failed)"]
    else:
        body += ["", "this unit has no native replay harness (callees are havocking contracts / generated bodies); the failed obligation above is the verifier's verdict"]
    with open(txtpath, "w") as f:
        f.write("\n".join(str(b) for b in body) + "\n")
    ident = {k: best[k] for k in ("unit", "function", "class", "description", "line_text", "id")}
    return {"identity": ident, "native": best_native, "path": cfile or txtpath, "report": txtpath,
            "others": [{k: fo[k] for k in ("function", "class", "description", "line_text")} for fo in failed if fo is not best]}


def small_variant_traces(unit, bld, work, res):
    """re-run with --trace: on the small-size variant when the unit has one, else on the unit itself
    restricted to the failed properties"""
    wdir = os.path.join(work, unit.name, "small")
    try:
        if unit.small:
            gb, _ = build_unit(unit, bld, wdir, extra_defines=unit.small)
            cmd = cbmc_cmd(unit, gb, trace=True)
        else:
            gb = res["gb"]
            cmd = cbmc_cmd(unit, gb, trace=True, props=[fo["id"] for fo in res["failed"][:6]])
        out = os.path.join(wdir, "cbmc.json")
        os.makedirs(wdir, exist_ok=True)
        rc, err, dt = run(cmd, timeout=unit.timeout, stdout_path=out)
        if rc == -9:
            return {}
        results, msgs, status = parse_cbmc(out)
        m = {}
        for o in results or []:
            if o["status"] == "FAILURE" and "VERIF_REACH" not in o.get("description", ""):
                i = ob_identity(unit, o)
                m[(i["function"], i["class"], i["description"])] = o.get("trace")
        return m
    except Exception:
        return {}


# ------------------------------------------------------------------ known findings
def load_known():
    known, fixed = [], []
    p = os.path.join(VERIF, "known_findings.txt")
    if not os.path.exists(p):
        return known, fixed
    for line in open(p):
        line = line.strip()
        if line.startswith("known:"):
            d = dict(re.findall(r"(\w+)=(\"[^\"]*\"|\S+)", line[6:]))
            d = {k: v.strip('"') for k, v in d.items()}
            d["raw"] = line
            known.append(d)
        elif line.startswith("fixed:"):
            fixed.append(line)
    return known, fixed


def match_known(known, pid, ident):
    for k in known:
        if k.get("unit") != ident["unit"]:
            continue
        if k.get("function") and k["function"] != ident["function"]:
            continue
        if k.get("obligation") and k["obligation"] not in ident["description"]:
            continue
        if k.get("line") and k["line"] not in ident["line_text"]:
            continue
        return k
    return None


# ------------------------------------------------------------------ static facts
def static_facts(pid, work):
    try:
        import facts
    except Exception:
        return []
    return facts.run(pid, work, REPO)


# ------------------------------------------------------------------ check
def select_units(units, pid, tier, names):
    sel = []
    for u in units:
        if pid not in u.props:
            continue
        if names and u.name not in names:
            continue
        if tier == "quick" and u.tier != "quick":
            continue
        sel.append(u)
    return sel


def check(pid, tier, names, jobs, keep):
    t0 = time.time()
    seed = int(os.environ.get("VERIF_SEED", "0") or 0)
    units = load_units()
    import units as U
    meta = U.PROPS.get(pid)
    if meta is None:
        print("property %s is not claimed (see MANIFEST.json not_applicable)" % pid)
        return 2
    sel = select_units(units, pid, tier, names)
    if not sel:
        print("no units selected for %s" % pid)
        return 2
    work = os.path.join(WORKROOT, "%s-%d" % (pid, os.getpid()))
    shutil.rmtree(work, ignore_errors=True)
    os.makedirs(work)
    shutil.rmtree(os.path.join(VERIF, "replay", pid), ignore_errors=True)
    bld = Builder(work)
    known, fixed = load_known()
    results = []
    # longest first
    sel.sort(key=lambda u: -u.cost)
    with cf.ThreadPoolExecutor(max_workers=jobs) as ex:
        futs = {ex.submit(run_unit, u, bld, work, tier): u for u in sel}
        for f in cf.as_completed(futs):
            u = futs[f]
            r = f.result()
            results.append((u, r))
            print("  unit %-40s %-8s obligations=%d discharged=%d solver=%.1fs %s" % (u.name, r["status"], r["obligations"], r["discharged"], r["solver_s"], (r["diag"] or "").split("\n")[0][:160]), flush=True)
    facts_out = static_facts(pid, work)
    # verdicts
    violations, known_hits, inconclusive = [], [], []
    for u, r in results:
        if r["status"] in ("timeout", "error", "stale", "vacuous"):
            inconclusive.append((u, r))
        elif r["status"] == "fail":
            unknown = []
            for fo in r["failed"]:
                k = match_known(known, pid, fo)
                if k:
                    known_hits.append((k, fo))
                    fo["known"] = True
                else:
                    unknown.append(fo)
            if unknown:
                r2 = dict(r)
                r2["failed"] = unknown
                # one VIOLATION line per unit: the natively reproduced obligation if any, else the first
                violations.append((u, handle_failure(u, r2, bld, work, pid, tier)))
    for ff in facts_out:
        if ff.get("status") == "violation":
            violations.append((None, ff))
        elif ff.get("status") == "inconclusive":
            inconclusive.append((None, ff))
    seen = set()
    for k, fo in known_hits:
        key = k["raw"]
        if key in seen:
            continue
        seen.add(key)
        print("KNOWN-FINDING: property=%s unit=%s %s" % (pid, fo["unit"], k.get("what", k["raw"])))
    for u, rep in violations:
        if u is None:
            print("VIOLATION property=%s replay=%s%s" % (pid, rep["path"], "" if rep.get("native") == "reproduced" else " no-failing-input-found"))
            continue
        suffix = "" if rep["native"] == "reproduced" else " no-failing-input-found"
        print("  failed obligation: unit=%s function=%s %s: %s  [%s]" % (rep["identity"]["unit"], rep["identity"]["function"], rep["identity"]["class"], rep["identity"]["description"], rep["identity"]["line_text"]))
        for o in rep.get("others", [])[:6]:
            print("  also failed: function=%s %s: %s  [%s]" % (o["function"], o["class"], o["description"], o["line_text"]))
        print("VIOLATION property=%s replay=%s%s" % (pid, rep["path"], suffix))
    for u, r in inconclusive:
        print("INCONCLUSIVE unit=%s status=%s %s" % (u.name if u else r.get("name"), r["status"], (r.get("diag") or "")[:600]))
    write_evidence(pid, tier, seed, meta, results, facts_out, violations, known_hits, inconclusive, time.time() - t0)
    if not keep:
        shutil.rmtree(work, ignore_errors=True)
        try:
            os.rmdir(WORKROOT)
        except OSError:
            pass
    if violations:
        return 1
    if inconclusive:
        return 2
    print("OK property=%s tier=%s units=%d obligations=%d all discharged (%.0fs)" % (pid, tier, len(results), sum(r["obligations"] for _, r in results), time.time() - t0))
    return 0


def write_evidence(pid, tier, seed, meta, results, facts_out, violations, known_hits, inconclusive, wall):
    proof_units = [(u, r) for u, r in results if u.kind in ("proof", "finite")]
    bounded_units = [(u, r) for u, r in results if u.kind == "bounded"]
    n_known = sum(1 for _, r in results for fo in r["failed"] if fo.get("known"))
    ob_p = sum(r["obligations"] for _, r in proof_units)
    di_p = sum(r["discharged"] for _, r in proof_units)
    ob_b = sum(r["obligations"] for _, r in bounded_units)
    di_b = sum(r["discharged"] for _, r in bounded_units)
    known_p = sum(1 for _, r in proof_units for fo in r["failed"] if fo.get("known"))
    known_b = sum(1 for _, r in bounded_units for fo in r["failed"] if fo.get("known"))
    assumptions = list(meta.get("assumptions", []))
    trusted = list(meta.get("trusted_base", []))
    for u, r in results:
        for a in u.assumptions:
            if a not in assumptions:
                assumptions.append(a)
    per_unit = []
    samples = []
    for u, r in sorted(results, key=lambda x: x[0].name):
        per_unit.append({"unit": u.name, "kind": u.kind, "bounded": u.bounds, "functions_under_contract": u.functions,
                         "callee_treatment": u.callees, "config": u.defines, "status": r["status"],
                         "obligations": r["obligations"], "discharged": r["discharged"], "by_class": r.get("classes", {}),
                         "reach_markers_failed_as_required": r["reach"], "backend": r["backend"], "solver_s": r["solver_s"],
                         "build_s": r["build_s"], "no_body_functions": r.get("no_body", []), "diag": r["diag"][:400]})
        for s in r.get("sample_obligations", [])[:2]:
            if len(samples) < 24:
                samples.append("%s :: %s" % (u.name, s))
    level = meta["level"]
    cov = {
        "obligations": ob_p + ob_b - n_known if level != "proof" else ob_p - known_p,
        "discharged": di_p + di_b if level != "proof" else di_p,
        "obligations_proof_units": ob_p - known_p, "discharged_proof_units": di_p,
        "obligations_bounded_units": ob_b - known_b, "discharged_bounded_units": di_b,
        "known_finding_obligations": n_known,
        "checker_cmd": "python3 /verif/vp.py check %s --tier %s  (per unit: goto-cc on /repo/src as is; goto-instrument --dfcc <harness> --enforce-contract f/f__contract [--replace-call-with-contract g/g__contract] [--loop-contracts-file --apply-loop-contracts]; cbmc %s --json-ui --trace)" % (pid, tier, " ".join(CBMC_CHECKS)),
        "trusted_base": trusted,
        "explanation": meta["explanation"],
        "slice_decided": meta.get("slice", ""),
        "not_reached": meta.get("not_reached", ""),
        "units": per_unit,
        "units_proof": len(proof_units), "units_bounded": len(bounded_units),
        "functions_under_contract": sorted({f for u, _ in results for f in u.functions}),
        "static_facts": facts_out,
        "samples": samples or ["(no obligations)"],
        "solver_seconds_total": round(sum(r["solver_s"] for _, r in results), 1),
        "inconclusive_units": [{"unit": (u.name if u else r.get("name")), "status": r["status"], "diag": (r.get("diag") or "")[:300]} for u, r in inconclusive],
        "violations": [{"unit": (u.name if u else None), "replay": rep["path"], "native": rep.get("native"), "identity": rep.get("identity")} for u, rep in violations],
        "known_findings_hit": [k["raw"] for k, _ in known_hits],
    }
    ev = {"property_id": pid, "tier": tier, "seed": seed, "level": level, "coverage": cov,
          "assumptions": assumptions, "wall_s": round(wall, 1), "violations": len(violations)}
    os.makedirs(os.path.join(VERIF, "evidence"), exist_ok=True)
    with open(os.path.join(VERIF, "evidence", pid + ".json"), "w") as f:
        json.dump(ev, f, indent=1)


def setup():
    ok = True
    for tool in ("cbmc", "goto-cc", "goto-instrument", "clang"):
        p = shutil.which(tool)
        print("%-16s %s" % (tool, p))
        ok = ok and bool(p)
    rc, txt, _ = run(["cbmc", "--version"])
    print("cbmc version", txt.strip())
    units = load_units()
    import units as U
    names = set()
    for u in units:
        assert u.name not in names, "duplicate unit " + u.name
        names.add(u.name)
        for s in u.spec + u.lib:
            assert os.path.exists(os.path.join(CONTRACTS, s)), "missing spec file " + s
        for p in u.props:
            assert p in U.PROPS, "unit %s names unclaimed property %s" % (u.name, p)
    print("%d units, %d properties claimed" % (len(units), len(U.PROPS)))
    return 0 if ok else 1


def main():
    ap = argparse.ArgumentParser()
    sub = ap.add_subparsers(dest="cmd")
    sub.add_parser("setup")
    l = sub.add_parser("list")
    l.add_argument("pid", nargs="?")
    c = sub.add_parser("check")
    c.add_argument("pid")
    c.add_argument("--tier", default=os.environ.get("VERIF_TIER", "quick"), choices=["quick", "thorough"])
    c.add_argument("--unit", action="append", default=[])
    c.add_argument("--jobs", type=int, default=int(os.environ.get("VERIF_JOBS", "16")))
    c.add_argument("--keep", action="store_true")
    a = ap.parse_args()
    if a.cmd == "setup":
        sys.exit(setup())
    if a.cmd == "list":
        for u in load_units():
            if not a.pid or a.pid in u.props:
                print("%-44s %-8s %-8s %s" % (u.name, u.kind, u.tier, ",".join(u.props)))
        sys.exit(0)
    if a.cmd == "check":
        sys.exit(check(a.pid, a.tier, a.unit, a.jobs, a.keep))
    ap.print_help()
    sys.exit(2)


if __name__ == "__main__":
    main()
