#!/bin/bash
# run_all.sh [quick|thorough]: every claimed property's check, sequentially; summary to stdout (maintainer aid)
TIER=${1:-quick}
for p in $(python3 -c "import json;print(' '.join(c['property_id'] for c in json.load(open('/verif/MANIFEST.json'))['checks']))"); do
  s=$(date +%s)
  out=$(python3 /verif/vp.py check $p --tier $TIER 2>&1); rc=$?
  e=$(date +%s)
  echo "$p rc=$rc $((e-s))s $(echo "$out" | grep -E '^OK|^VIOLATION|^INCONCLUSIVE|^KNOWN-FINDING' | cut -c1-150 | tr '\n' '|')"
done
